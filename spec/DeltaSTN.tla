------------------------------ MODULE DeltaSTN ------------------------------
(***************************************************************************)
(* Simple temporal networks with incremental consistency checking, as      *)
(* implemented by unified_planning.model.delta_stn.DeltaSimpleTemporalNetwork *)
(*                                                                         *)
(* Two layers:                                                             *)
(*  - Impl layer (variables adj, dist, known, sat): shaped like the Python *)
(*    object. adj[n][x] is the linked list _constraints[x] (most recent    *)
(*    first), dist[n][x] is _distances[x], known[n] the key set of         *)
(*    _distances, sat[n] is _is_sat. One action per public call: Add, Copy,*)
(*    Touch (insert_interval without bounds).                              *)
(*  - Spec layer (variable all): the set of difference constraints ever    *)
(*    inserted in network n (x - y <= b), with consistency decided by      *)
(*    Floyd-Warshall and the model defined as the least non-negative       *)
(*    solution.                                                            *)
(* Property C25: sat <=> Consistent(all); while consistent the reported    *)
(* model satisfies all constraints and is the least non-negative solution; *)
(* a copy evolves independently.                                           *)
(***************************************************************************)
EXTENDS Integers, Sequences, FiniteSets, TLC

CONSTANTS NEv,      \* events are 1..NEv
          NNet,     \* networks are 1..NNet (network 1 exists initially; others by Copy)
          Bnd,      \* set of integer bounds used by Next (exhaustive configurations)
          MaxOps    \* bound on the number of public calls

Ev  == 1..NEv
Net == 1..NNet
INF == 100000000

VARIABLES live, adj, dist, known, sat, all, nops, diverged
vars == <<live, adj, dist, known, sat, all, nops, diverged>>

EmptyAdj  == [x \in Ev |-> <<>>]
ZeroDist  == [x \in Ev |-> 0]

Init == /\ live = {1}
        /\ adj = [n \in Net |-> EmptyAdj]
        /\ dist = [n \in Net |-> ZeroDist]
        /\ known = [n \in Net |-> {}]
        /\ sat = [n \in Net |-> TRUE]
        /\ all = [n \in Net |-> {}]
        /\ nops = 0
        /\ diverged = FALSE

-----------------------------------------------------------------------------
(* Impl layer *)

\* _is_subsumed: the first neighbour with dst = y decides
Subsumed(a, y, b) ==
   LET idx == {i \in DOMAIN a : a[i][1] = y} IN
   IF idx = {} THEN FALSE
   ELSE a[CHOOSE i \in idx : \A j \in idx : i <= j][2] <= b

\* the neighbour loop of _inc_check for node c: walk ad[c] in list order
RECURSIVE Nb(_,_,_,_,_,_,_)
Nb(ad, c, i, dd, qq, y, b) ==
   IF i > Len(ad[c]) THEN [ret |-> FALSE, d |-> dd, q |-> qq]
   ELSE LET n == ad[c][i] IN
        IF dd[c] + n[2] < dd[n[1]]
        THEN IF n[1] = y /\ n[2] = b
             THEN [ret |-> TRUE, d |-> dd, q |-> qq]
             ELSE Nb(ad, c, i + 1, [dd EXCEPT ![n[1]] = dd[c] + n[2]], Append(qq, n[1]), y, b)
        ELSE Nb(ad, c, i + 1, dd, qq, y, b)

\* the queue loop of _inc_check; fuel detects non-termination (reported, never silently cut)
RECURSIVE Loop(_,_,_,_,_,_)
Loop(ad, d, q, y, b, fuel) ==
   IF q = <<>> THEN [ok |-> TRUE, d |-> d, div |-> FALSE]
   ELSE IF fuel = 0 THEN [ok |-> TRUE, d |-> d, div |-> TRUE]
   ELSE LET r == Nb(ad, Head(q), 1, d, Tail(q), y, b) IN
        IF r.ret THEN [ok |-> FALSE, d |-> r.d, div |-> FALSE]
        ELSE Loop(ad, r.d, r.q, y, b, fuel - 1)

IncCheck(ad, d, x, y, b) ==
   IF d[x] + b < d[y]
   THEN Loop(ad, [d EXCEPT ![y] = d[x] + b], <<y>>, y, b, 400)
   ELSE [ok |-> TRUE, d |-> d, div |-> FALSE]

\* the effect of add(x, y, b) on one network, as a function (used by Add and by the trace spec)
AddResult(a, d, k, s, x, y, b) ==
   IF ~s THEN [adj |-> a, dist |-> d, known |-> k, sat |-> s, div |-> FALSE]
   ELSE IF Subsumed(a[x], y, b)
        THEN [adj |-> a, dist |-> d, known |-> k \cup {x, y}, sat |-> s, div |-> FALSE]
        ELSE LET na == [a EXCEPT ![x] = <<<<y, b>>>> \o a[x]]
                 r  == IncCheck(na, d, x, y, b)
             IN [adj |-> na, dist |-> r.d, known |-> k \cup {x, y}, sat |-> r.ok, div |-> r.div]

Add(n, x, y, b) ==
   /\ n \in live /\ nops < MaxOps
   /\ LET r == AddResult(adj[n], dist[n], known[n], sat[n], x, y, b) IN
      /\ adj' = [adj EXCEPT ![n] = r.adj]
      /\ dist' = [dist EXCEPT ![n] = r.dist]
      /\ known' = [known EXCEPT ![n] = r.known]
      /\ sat' = [sat EXCEPT ![n] = r.sat]
      /\ diverged' = (diverged \/ r.div)
   /\ all' = [all EXCEPT ![n] = @ \cup {<<x, y, b>>}]
   /\ nops' = nops + 1
   /\ UNCHANGED live

\* copy_stn: shallow copies of both dictionaries (list tails are shared but immutable)
Copy(n, m) ==
   /\ n \in live /\ m \notin live /\ nops < MaxOps
   /\ \A k \in Net \ live : m <= k          \* networks are created in index order
   /\ live' = live \cup {m}
   /\ adj' = [adj EXCEPT ![m] = adj[n]]
   /\ dist' = [dist EXCEPT ![m] = dist[n]]
   /\ known' = [known EXCEPT ![m] = known[n]]
   /\ sat' = [sat EXCEPT ![m] = sat[n]]
   /\ all' = [all EXCEPT ![m] = all[n]]
   /\ nops' = nops + 1
   /\ UNCHANGED diverged

\* insert_interval(x, y) with neither bound: only registers the two events
Touch(n, x, y) ==
   /\ n \in live /\ nops < MaxOps
   /\ known' = [known EXCEPT ![n] = @ \cup {x, y}]
   /\ nops' = nops + 1
   /\ UNCHANGED <<live, adj, dist, sat, all, diverged>>

Next == \/ \E n \in Net, x \in Ev, y \in Ev, b \in Bnd : Add(n, x, y, b)
        \/ \E n \in Net, m \in Net : Copy(n, m)
        \/ \E n \in Net, x \in Ev, y \in Ev : x < y /\ Touch(n, x, y)

Spec == Init /\ [][Next]_vars

-----------------------------------------------------------------------------
(* Spec layer: difference constraints, Floyd-Warshall *)

Min(S) == CHOOSE m \in S : \A z \in S : m <= z

\* W[<<x, y>>] = tightest known bound on x - y
\* (TLCEval forces TLC to tabulate the function instead of re-evaluating it lazily)
W0(C) == TLCEval([p \in Ev \X Ev |->
            LET bs == {c[3] : c \in {c \in C : c[1] = p[1] /\ c[2] = p[2]}} IN
            IF p[1] = p[2] THEN Min(bs \cup {0}) ELSE IF bs = {} THEN INF ELSE Min(bs)])

RECURSIVE FW(_,_)
FW(W, K) == IF K = {} THEN W
            ELSE LET k == CHOOSE k \in K : TRUE IN
                 FW(TLCEval([p \in Ev \X Ev |->
                       IF W[<<p[1], k>>] < INF /\ W[<<k, p[2]>>] < INF
                          /\ W[<<p[1], k>>] + W[<<k, p[2]>>] < W[p]
                       THEN W[<<p[1], k>>] + W[<<k, p[2]>>] ELSE W[p]]), K \ {k})

Closure(C) == FW(W0(C), Ev)
Consistent(C) == LET cl == Closure(C) IN \A x \in Ev : cl[<<x, x>>] >= 0

\* x - y <= D[x,y]  =>  t[y] >= t[x] - D[x,y] ;  t >= 0.  Least solution:
LeastCl(cl, K, y) == 0 - Min({cl[<<x, y>>] : x \in K} \cup {0})
Least(C, K, y) == LeastCl(Closure(C), K, y)
ConsistentCl(cl) == \A x \in Ev : cl[<<x, x>>] >= 0

Satisfies(t, C) == \A c \in C : t[c[1]] - t[c[2]] <= c[3]

\* tightest inserted bound per ordered pair: what get_constraints() must list
Tightest(C) == {c \in C : \A c2 \in C : (c2[1] = c[1] /\ c2[2] = c[2]) => c[3] <= c2[3]}
AdjCons(a) == UNION {{<<x, a[x][i][1], a[x][i][2]>> :
                          i \in {i \in DOMAIN a[x] : \A j \in 1..(i-1) : a[x][j][1] # a[x][i][1]}} : x \in Ev}

-----------------------------------------------------------------------------
(* The properties (C25) as invariants relating the two layers *)

Exact == \A n \in live : sat[n] <=> Consistent(all[n])

ModelOK == \A n \in live : sat[n] =>
              LET t == [x \in Ev |-> 0 - dist[n][x]] IN
              /\ Satisfies(t, all[n])
              /\ \A x \in known[n] : t[x] >= 0 /\ t[x] = Least(all[n], known[n], x)

ConstraintsOK == \A n \in live : sat[n] => AdjCons(adj[n]) = Tightest(all[n])

KnownOK == \A n \in live : sat[n] => ({c[1] : c \in all[n]} \cup {c[2] : c \in all[n]}) \subseteq known[n]

Terminates == ~diverged

\* copies are independent: an action on network n leaves every other network unchanged
Independent == [][\A n \in Net : (all'[n] = all[n] /\ n \in live) =>
                    (adj'[n] = adj[n] /\ dist'[n] = dist[n] /\ sat'[n] = sat[n] /\ known[n] \subseteq known'[n])]_vars

=============================================================================
