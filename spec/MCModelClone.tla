---------------------------- MODULE MCModelClone ----------------------------
(* T1 for C22: the implementation-shaped layer of ModelClone (content +       *)
(* conflict bookkeeping, clone() copying a given set of fields) against the   *)
(* declarative layer, for <= MaxPre edits of the original, Clone, and any     *)
(* interleaving of <= MaxPost edits applied to both / the original only / the *)
(* clone only (<= MaxTotal edits in all).  The invariants quantify over the   *)
(* *next* edit as well, so the acceptance of one more edit is covered.        *)
(*                                                                            *)
(* One run explores several configurations chosen in Init: a problem class    *)
(* and one field `miss` that clone() does not copy ("none" = clone() copies   *)
(* everything = the repaired clone()).                                        *)
(*   miss = "none"   the property invariants are real TLC invariants: the     *)
(*                   repaired design must satisfy all of them                 *)
(*   miss = a field  the verdict is total: every violated invariant is        *)
(*                   printed as <<"T1CEX", cls, miss, invariant, witness>>    *)
(*                   (the driver obtains a counterexample trace by re-running *)
(*                   the configuration with Strict = TRUE)                    *)
(* What the real clone() methods do not copy (read off the pinned tree):      *)
(*   Problem.clone              tinc (_fluents_inc_dec)                        *)
(*   ContingentProblem.clone    traj, tasg, tinc, tm, mdef                    *)
(*   HierarchicalProblem.clone  traj, tasg, tinc, tm, mdef                    *)
(*   MultiAgentProblem.clone    idef (the MAEnvironment and the agents of the *)
(*                              clone are built before _initial_defaults is   *)
(*                              assigned)                                     *)
EXTENDS ModelClone
CONSTANTS MaxPre, MaxPost, MaxTotal,   \* bounds: npre <= MaxPre, npost <= MaxPost, npre + npost <= MaxTotal
          Small,      \* TRUE: one representative edit per rule
          Configs,    \* "code": per class "none" + the fields its clone() misses; "full": "none" only;
                      \* "fields": every field of AllFields on its own (sensitivity of the invariants);
                      \* any other string: that one field
          ClsSet,     \* classes explored
          Strict      \* TRUE: violations of miss # "none" configurations are real invariant violations
VARIABLES cls, miss,   \* configuration
          o, c,        \* Impl layer: original, clone
          so, sc,      \* Spec layer: original, clone
          cloned, sync, npre, npost
vars == <<cls, miss, o, c, so, sc, cloned, sync, npre, npost>>

UncopiedByCode == [plain |-> {"tinc"},
                   cont  |-> {"traj", "tasg", "tinc", "tm", "mdef"},
                   htn   |-> {"traj", "tasg", "tinc", "tm", "mdef"},
                   ma    |-> {"idef"}]
MissOf(k) == CASE Configs = "code"   -> {"none"} \cup UncopiedByCode[k]
               [] Configs = "full"   -> {"none"}
               [] Configs = "fields" -> AllFields
               [] OTHER              -> {Configs}

TEditsTab == TLCEval([k \in Classes |-> IF Small THEN SmallEdits(k) ELSE Edits(k)])
TEdits == TEditsTab[cls]
\* the edits whose acceptance the Impl layer decides from its bookkeeping
ConfEditsTab == TLCEval([k \in Classes |-> {e \in TEditsTab[k] : e.op \in {"teff", "acteff"}}])

\* the configuration's uncopied field is chosen when the clone is made (miss = "" before), so that
\* the histories of the original before the clone are explored once per class.
\* Initial problems: (no initial defaults, continuous time), (Boolean default false, discrete time)
Init == \E k \in ClsSet : \E b \in {<<"none", FALSE>>, <<"f", k # "ma">>} :
         LET idef == b[1]  tm == b[2] IN
           /\ cls = k /\ miss = ""
           /\ o = EmptyI(idef, tm) /\ so = Empty(idef, tm)
           /\ c = EmptyI("none", FALSE) /\ sc = Empty("none", FALSE)
           /\ cloned = FALSE /\ sync = TRUE /\ npre = 0 /\ npost = 0

SpecNext(p, e) == SpecStep(p, e, SpecAcc(p, e) = "")

Pre(e) == /\ ~cloned /\ npre < MaxPre /\ npre < MaxTotal
          /\ o' = ImplStep(o, e) /\ so' = SpecNext(so, e)
          /\ npre' = npre + 1
          /\ UNCHANGED <<cls, miss, c, sc, cloned, sync, npost>>
DoClone(m) == /\ ~cloned
              /\ miss' = m
              /\ c' = ImplClone(o, AllFields \ {m}) /\ sc' = SpecClone(so)
              /\ cloned' = TRUE
              /\ UNCHANGED <<cls, o, so, sync, npre, npost>>
\* (post-edits are explored for the repaired clone; an as-written configuration is judged on the clone
\* itself and, by the look-ahead of the invariants, on one more edit)
Post(e, tgt) == /\ cloned /\ npost < MaxPost /\ npre + npost < MaxTotal /\ (miss = "none" \/ Strict)
                /\ IF tgt \in {"both", "o"} THEN o' = ImplStep(o, e) /\ so' = SpecNext(so, e)
                                            ELSE UNCHANGED <<o, so>>
                /\ IF tgt \in {"both", "c"} THEN c' = ImplStep(c, e) /\ sc' = SpecNext(sc, e)
                                            ELSE UNCHANGED <<c, sc>>
                /\ sync' = (sync /\ tgt = "both")
                /\ npost' = npost + 1
                /\ UNCHANGED <<cls, miss, cloned, npre>>
Next == \/ \E e \in TEdits : Pre(e)
        \/ \E m \in MissOf(cls) : DoClone(m)
        \/ \E e \in TEdits, tgt \in {"both", "o", "c"} : Post(e, tgt)
Spec == Init /\ [][Next]_vars

\* ---- the property, on the Spec layer (sanity of the declarative layer itself)
SpecEqualAfterEqualEdits == cloned /\ sync => so = sc /\ AbsEq(cls, so, sc)
\* ---- the property, on the Impl layer
\* clone is equal to the original, and equal edits keep them equal
\* (looking one equal edit ahead)
EqualAfterEqualEdits == cloned /\ sync => /\ ImplEq(cls, o, c)
                                          /\ \A e \in TEdits : ImplEq(cls, ImplStep(o, e), ImplStep(c, e))
\* each edit succeeds on the clone iff it succeeds on the original
AccDiffer == {e \in TEdits : (ImplAcc(o, e) = "") # (ImplAcc(c, e) = "")}
SameAcceptance == cloned /\ sync => AccDiffer = {}
\* ---- refinement: each Impl problem behaves as the Spec says of its own content (this is what
\* makes edits of one problem invisible to the other: acceptance depends on own content only)
UnlikeSpec == {e \in ConfEditsTab[cls] : \/ ImplAcc(o, e) # SpecAcc(so, e)
                                         \/ cloned /\ ImplAcc(c, e) # SpecAcc(sc, e)}
AcceptsLikeSpec == UnlikeSpec = {}
Refines == Content(o) = so /\ (cloned => Content(c) = sc)
BookP(ip) == LET b == BookOf(ip) IN
             ip.tasg = b.tasg /\ ip.tinc = b.tinc /\ ip.aasg = b.aasg /\ ip.ainc = b.ainc
BookOK == BookP(o) /\ (cloned => BookP(c))

\* ---- verdicts
Hard == miss \in {"", "none"} \/ Strict
I_SpecEqualAfterEqualEdits == SpecEqualAfterEqualEdits
I_EqualAfterEqualEdits == Hard => EqualAfterEqualEdits
I_SameAcceptance == Hard => SameAcceptance
I_AcceptsLikeSpec == Hard => AcceptsLikeSpec
I_Refines == miss \in {"", "none"} => Refines
I_BookOK == miss \in {"", "none"} => BookOK
\* the observable invariants a configuration violates in this state, with a witness edit kind
Wit(S) == IF S = {} THEN "" ELSE LET e == CHOOSE x \in S : TRUE IN e.op \o "." \o e.k
Failing == (IF EqualAfterEqualEdits THEN {} ELSE {<<"EqualAfterEqualEdits", "">>})
           \cup (IF SameAcceptance THEN {} ELSE {<<"SameAcceptance", Wit(AccDiffer)>>})
           \cup (IF AcceptsLikeSpec THEN {} ELSE {<<"AcceptsLikeSpec", Wit(UnlikeSpec)>>})
Total == ~Hard => \A f \in Failing : PrintT(<<"T1CEX", cls, miss, f[1], f[2], npre + npost>>)
\* a configuration state that already shows a violation is not explored further
Prune == Hard \/ Failing = {}
=============================================================================
