---------------------------- MODULE MCModelClone ----------------------------
(* T1 for C22: the implementation-shaped layer of ModelClone (content +       *)
(* conflict bookkeeping, clone() copying the fields in Copied) against the    *)
(* declarative layer, for <= MaxPre edits of the original, Clone, and any     *)
(* interleaving of <= MaxPost edits applied to both / the original only / the *)
(* clone only.  The invariants quantify over the *next* edit as well, so the  *)
(* acceptance of MaxPost + 1 edits after the clone is covered.                *)
(*                                                                            *)
(* What the real clone() methods copy (read off the pinned tree; the driver   *)
(* runs one configuration per uncopied field, expecting a counterexample, and *)
(* the configuration Copied = AllFields, expecting none):                     *)
(*   Problem.clone              everything but tinc (_fluents_inc_dec)         *)
(*   ContingentProblem.clone    not traj, tasg, tinc, tm, mdef                *)
(*   HierarchicalProblem.clone  not traj, tasg, tinc, tm, mdef                *)
(*   MultiAgentProblem.clone    not idef (the MAEnvironment and the agents of *)
(*                              the clone are built before _initial_defaults  *)
(*                              is assigned)                                  *)
EXTENDS ModelClone
CONSTANTS MaxPre, MaxPost,
          Small     \* TRUE: one representative edit per rule (quick tier)
VARIABLES o, c,        \* Impl layer: original, clone
          so, sc,      \* Spec layer: original, clone
          cloned, sync, npre, npost
vars == <<o, c, so, sc, cloned, sync, npre, npost>>

UncopiedByCode == [plain |-> {"tinc"},
                   cont  |-> {"traj", "tasg", "tinc", "tm", "mdef"},
                   htn   |-> {"traj", "tasg", "tinc", "tm", "mdef"},
                   ma    |-> {"idef"}]

\* one representative per acceptance rule / content field
SmallEdits ==
   {e \in Edits :
      \/ e.op = "fluent" /\ e.k \in {"none", "t"}
      \/ e.op \in {"object", "action"}
      \/ e.op = "goal" /\ e.a \in {"g1", "gtrue"}
      \/ e.op \in {"teff", "acteff"} /\ e.t # "e" /\
            \/ e.f = "x" /\ e.k = "asg" /\ (~e.c \/ e.v = 1)
            \/ e.f = "x" /\ e.k = "inc" /\ ~e.c
            \/ e.f = "b" /\ e.k = "asg" /\ e.v = 1 /\ ~e.c
      \/ e.op = "tgoal" /\ e.a = "g1" /\ e.t \in {"p5", "bad"}
      \/ e.op = "traj" /\ e.a \in {"tr1", "bad"}
      \/ e.op = "metric" /\ e.a \in {"minx", "cost"}
      \/ e.op = "init" /\ <<e.f, e.v>> \in {<<"x", 1>>, <<"b", 2>>, <<"n", 1>>}}
TEdits == IF Small THEN SmallEdits ELSE Edits

Init == \E idef \in {"none", "f"}, tm \in (IF Cls = "ma" THEN {FALSE} ELSE BOOLEAN) :
           /\ o = EmptyI(idef, tm) /\ so = Empty(idef, tm)
           /\ c = EmptyI("none", FALSE) /\ sc = Empty("none", FALSE)
           /\ cloned = FALSE /\ sync = TRUE /\ npre = 0 /\ npost = 0

SpecNext(p, e) == SpecStep(p, e, SpecAcc(p, e) = "")

Pre(e) == /\ ~cloned /\ npre < MaxPre
          /\ o' = ImplStep(o, e) /\ so' = SpecNext(so, e)
          /\ npre' = npre + 1
          /\ UNCHANGED <<c, sc, cloned, sync, npost>>
DoClone == /\ ~cloned
           /\ c' = ImplClone(o) /\ sc' = SpecClone(so)
           /\ cloned' = TRUE
           /\ UNCHANGED <<o, so, sync, npre, npost>>
Post(e, tgt) == /\ cloned /\ npost < MaxPost
                /\ IF tgt \in {"both", "o"} THEN o' = ImplStep(o, e) /\ so' = SpecNext(so, e)
                                            ELSE UNCHANGED <<o, so>>
                /\ IF tgt \in {"both", "c"} THEN c' = ImplStep(c, e) /\ sc' = SpecNext(sc, e)
                                            ELSE UNCHANGED <<c, sc>>
                /\ sync' = (sync /\ tgt = "both")
                /\ npost' = npost + 1
                /\ UNCHANGED <<cloned, npre>>
Next == \/ \E e \in TEdits : Pre(e)
        \/ DoClone
        \/ \E e \in TEdits, tgt \in {"both", "o", "c"} : Post(e, tgt)
Spec == Init /\ [][Next]_vars

\* ---- the property, on the Spec layer (sanity of the declarative layer itself)
SpecEqualAfterEqualEdits == cloned /\ sync => so = sc /\ AbsEq(so, sc)
\* ---- the property, on the Impl layer
\* clone is equal to the original, and equal edits keep them equal
EqualAfterEqualEdits == cloned /\ sync => ImplEq(o, c)
\* each edit succeeds on the clone iff it succeeds on the original
SameAcceptance == cloned /\ sync => \A e \in Edits : (ImplAcc(o, e) = "") = (ImplAcc(c, e) = "")
\* ---- refinement: each Impl problem behaves as the Spec says of its own content (this is what
\* makes edits of one problem invisible to the other: acceptance depends on own content only)
AcceptsLikeSpec == \A e \in Edits : /\ ImplAcc(o, e) = SpecAcc(so, e)
                                    /\ cloned => ImplAcc(c, e) = SpecAcc(sc, e)
Refines == Content(o) = so /\ (cloned => Content(c) = sc)
BookP(ip) == LET b == BookOf(ip) IN
             ip.tasg = b.tasg /\ ip.tinc = b.tinc /\ ip.aasg = b.aasg /\ ip.ainc = b.ainc
BookOK == BookP(o) /\ (cloned => BookP(c))
\* edits to one leave the other unchanged (records are values: true by construction of both layers)
Independence == [][cloned /\ cloned' =>
                     \/ (c' = c /\ sc' = sc) \/ (o' = o /\ so' = so)
                     \/ \E e \in Edits : o' = ImplStep(o, e) /\ c' = ImplStep(c, e)]_vars
=============================================================================
