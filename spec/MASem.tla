------------------------------- MODULE MASem -------------------------------
(***************************************************************************)
(* C37: the multi-agent action-splitting compilers preserve each agent's   *)
(* action semantics.                                                       *)
(*                                                                         *)
(* A multi-agent problem M (MA-UPJ, projected from MultiAgentProblem) is   *)
(*   [types, objects, env (environment fluents), goals,                    *)
(*    agents : <<[name, fluents, public, actions]>>]                       *)
(* Expressions are UPExpr expressions plus                                 *)
(*   [op |-> "dot", name |-> agent, args |-> <<fluent node>>]              *)
(* and effect targets carry `agent` ("" = unqualified).                    *)
(*                                                                         *)
(* 1. Scoping (ResName / ResDot).  Inside an action of agent A an          *)
(*    unqualified fluent f denotes A's own f if A declares f, else the     *)
(*    environment fluent f.  Dot(B, f) denotes B's f.  At problem level    *)
(*    (goals) an unqualified fluent denotes the environment fluent.  Any   *)
(*    other reference is DANGLING (clauses "dangling-..."); to keep        *)
(*    judging the semantics it is then read as the f of the unique agent   *)
(*    that declares f when there is exactly one (else the compilation is   *)
(*    not judged further: "unresolvable-fluent-reference").                *)
(* 2. Flat(M) is the single-agent UPSeqSem problem obtained by pure        *)
(*    renaming: agent fluents and actions are named agent.name.            *)
(* 3. Judgement.  P = Flat(original), Q = Flat(compiled); the ground       *)
(*    fluents of Q are those of P plus auxiliary ones; ground actions of   *)
(*    Q map back (recorded table of the real map_back_action_instance) to  *)
(*    a ground action of P, or to nothing (auxiliary actions).             *)
(*    TLC generates EVERY total state st over Q's ground fluents (all of   *)
(*    them, not only the reachable ones; as successors of one root state   *)
(*    per compilation so that TLC's workers share the compilations).       *)
(*    Base(st) resets the auxiliary fluents to their initial values,       *)
(*    AuxReach(t) closes t under the auxiliary actions; st is JUSTIFIED    *)
(*    when st \in AuxReach(Base(st)): auxiliary fluents only record facts  *)
(*    about the original fluents that hold (the other states cannot be     *)
(*    reached by any compiled plan and are skipped).  In every justified   *)
(*    state, for every original ground action ga with variants             *)
(*    V(ga) = compiled ground actions mapping back to ga:                  *)
(*      variant-applicable-original-not   no variant is applicable unless  *)
(*                                        ga is                            *)
(*      original-applicable-no-variant    ga applicable and changing the   *)
(*                                        state => some variant applicable *)
(*                                        (a variant without effects may   *)
(*                                        be dropped: DESIGN 7.1-8)        *)
(*      variant-successor-differs         every applicable variant yields  *)
(*                                        ga's successor on P's fluents    *)
(*      variant-leaves-aux-unjustified    ... and a justified state        *)
(*      several-variants-applicable       (conditional-effects remover)    *)
(*                                        at most one variant applicable   *)
(*    "Maps back to ga" is about the action OBJECT: the table records, for *)
(*    every compiled ground action, the agent of the returned instance and *)
(*    the whole definition of the returned action; a variant whose         *)
(*    returned action is not the action of that name OWNED BY that agent   *)
(*    in the original problem (two agents may own different actions of one *)
(*    name) is reported (variant-maps-back-to-foreign-action) and is not a *)
(*    variant of ga.                                                       *)
(*    an auxiliary action (maps back to nothing) never changes one of P's  *)
(*    fluents (auxiliary-action-changes-original-fluent), and for the      *)
(*    goals:                                                               *)
(*      goal-compiled-holds-original-not  Q's goals hold in st => P's do   *)
(*      goal-original-holds-compiled-unreachable  P's goals hold => Q's    *)
(*                                        goals hold in some state of      *)
(*                                        AuxReach(st)                     *)
(*    Once per compilation (pseudo-state <<>>): the compiler returned,     *)
(*    names resolve, P's ground fluents and objects are kept, every        *)
(*    compiled ground action maps back to an existing action or to         *)
(*    nothing, initial values are preserved and the compiled initial       *)
(*    state is justified.                                                  *)
(* Total verdicts: <<"FAIL", cid, clause, detail>> printed by an invariant *)
(* that is always TRUE; <<"Z", cid, zone>> counts unjudged zones.          *)
(***************************************************************************)
EXTENDS UPSeqSem, Json, IOUtils

Corpus == ndJsonDeserialize(IOEnv.BATCH)

\* ---------- scoping ----------
AgNames(M) == {M.agents[i].name : i \in DOMAIN M.agents}
Ag(M, n) == M.agents[CHOOSE i \in DOMAIN M.agents : M.agents[i].name = n]
OwnF(M, n) == IF n \in AgNames(M) THEN {Ag(M, n).fluents[i].name : i \in DOMAIN Ag(M, n).fluents} ELSE {}
EnvF(M) == {M.env[i].name : i \in DOMAIN M.env}
Owners(M, f) == {a \in AgNames(M) : f \in OwnF(M, a)}
QN(a, f) == a \o "." \o f

\* an unqualified reference to f in scope ag ("" = problem level) is proper iff
ProperUnq(M, f, ag) == (ag # "" /\ f \in OwnF(M, ag)) \/ f \in EnvF(M)
ProperDot(M, a, f) == f \in OwnF(M, a)
ResName(M, f, ag) ==
   IF ag # "" /\ f \in OwnF(M, ag) THEN QN(ag, f)
   ELSE IF f \in EnvF(M) THEN f
   ELSE IF Cardinality(Owners(M, f)) = 1 THEN QN(CHOOSE a \in Owners(M, f) : TRUE, f)
   ELSE "?" \o f
ResDot(M, a, f) == IF f \in OwnF(M, a) THEN QN(a, f) ELSE "?" \o QN(a, f)

RECURSIVE Res(_,_,_)
Res(M, e, ag) ==
   IF e.op = "dot"
   THEN LET fe == e.args[1] IN
        [fe EXCEPT !.name = ResDot(M, e.name, fe.name),
                   !.args = TLCEval([i \in DOMAIN fe.args |-> Res(M, fe.args[i], ag)])]
   ELSE IF e.op = "fluent"
   THEN [e EXCEPT !.name = ResName(M, e.name, ag), !.args = TLCEval([i \in DOMAIN e.args |-> Res(M, e.args[i], ag)])]
   ELSE [e EXCEPT !.args = TLCEval([i \in DOMAIN e.args |-> Res(M, e.args[i], ag)])]

\* references of an expression: <<"unq", f>> and <<"dot", agent, f>>
RECURSIVE RefsOf(_)
RefsOf(e) ==
   (IF e.op = "dot" THEN {<<"dot", e.name, e.args[1].name>>} \cup UNION {RefsOf(e.args[1].args[i]) : i \in DOMAIN e.args[1].args}
    ELSE (IF e.op = "fluent" THEN {<<"unq", e.name, "">>} ELSE {}) \cup UNION {RefsOf(e.args[i]) : i \in DOMAIN e.args})
EffRefsOf(ef) ==
   {IF ef.f.agent = "" THEN <<"unq", ef.f.name, "">> ELSE <<"dot", ef.f.agent, ef.f.name>>}
   \cup UNION {RefsOf(ef.f.args[i]) : i \in DOMAIN ef.f.args} \cup RefsOf(ef.v) \cup RefsOf(ef.c)
ActRefsOf(a) == UNION {RefsOf(a.pre[i]) : i \in DOMAIN a.pre} \cup UNION {EffRefsOf(a.effects[i]) : i \in DOMAIN a.effects}
BadRef(M, r, ag) == IF r[1] = "unq" THEN ~ProperUnq(M, r[2], ag) ELSE ~ProperDot(M, r[2], r[3])
\* dangling references: <<scope agent, action, kind, x, y>>
DanglingActs(M) == UNION {UNION {{<<M.agents[i].name, M.agents[i].actions[j].name, r[1], r[2], r[3]>> :
                                     r \in {r \in ActRefsOf(M.agents[i].actions[j]) : BadRef(M, r, M.agents[i].name)}} :
                                 j \in DOMAIN M.agents[i].actions} : i \in DOMAIN M.agents}
DanglingGoals(M) == UNION {{<<"", "goal", r[1], r[2], r[3]>> : r \in {r \in RefsOf(M.goals[i]) : BadRef(M, r, "")}} : i \in DOMAIN M.goals}
\* a dangling reference that the unique-owner reading cannot resolve either
Unresolvable(M) == {d \in DanglingActs(M) \cup DanglingGoals(M) : d[3] = "dot" \/ Cardinality(Owners(M, d[4])) # 1}

\* ---------- flattening (pure renaming) ----------
\* (every function constructor is forced with TLCEval: TLC's functions are lazy and would redo
\* the renaming at every application)
RECURSIVE Concat(_)
Concat(ss) == IF ss = <<>> THEN <<>> ELSE Head(ss) \o Concat(Tail(ss))
FlatEff(M, ag, ef) ==
   [kind |-> ef.kind,
    f |-> [name |-> IF ef.f.agent = "" THEN ResName(M, ef.f.name, ag) ELSE ResDot(M, ef.f.agent, ef.f.name),
           args |-> TLCEval([i \in DOMAIN ef.f.args |-> Res(M, ef.f.args[i], ag)])],
    v |-> Res(M, ef.v, ag), c |-> Res(M, ef.c, ag), forall |-> ef.forall]
FlatAct(M, ag, a) ==
   [name |-> QN(ag, a.name), kind |-> a.kind, params |-> a.params,
    pre |-> TLCEval([i \in DOMAIN a.pre |-> Res(M, a.pre[i], ag)]),
    effects |-> TLCEval([i \in DOMAIN a.effects |-> FlatEff(M, ag, a.effects[i])])]
Flat(M) ==
   [types |-> M.types, objects |-> M.objects,
    fluents |-> M.env \o Concat(TLCEval([i \in DOMAIN M.agents |->
                   TLCEval([j \in DOMAIN M.agents[i].fluents |->
                      [M.agents[i].fluents[j] EXCEPT !.name = QN(M.agents[i].name, M.agents[i].fluents[j].name)]])])),
    actions |-> Concat(TLCEval([i \in DOMAIN M.agents |->
                   TLCEval([j \in DOMAIN M.agents[i].actions |-> FlatAct(M, M.agents[i].name, M.agents[i].actions[j])])])),
    goals |-> TLCEval([i \in DOMAIN M.goals |-> Res(M, M.goals[i], "")]),
    invariants |-> <<>>, init |-> <<>>, ifuns |-> <<>>]

\* ---------- per-compilation tables (constant level: evaluated once) ----------
\* agent ag of M owns exactly the action `act` (whole definition, not only its name)
OwnedBy(M, ag, act) == ag \in AgNames(M) /\ \E j \in DOMAIN Ag(M, ag).actions : Ag(M, ag).actions[j] = act
Judgeable(c) == Corpus[c].raised = "none" /\ Unresolvable(Corpus[c].MP) = {} /\ Unresolvable(Corpus[c].MQ) = {}
Tab == TLCEval([c \in DOMAIN Corpus |->
   IF ~Judgeable(c) THEN [ok |-> FALSE]
   ELSE LET P == Flat(Corpus[c].MP)
            Q == Flat(Corpus[c].MQ)
            pk == Corpus[c].pkeys
            qk == Corpus[c].qkeys
            kept == \A i \in DOMAIN pk : \E j \in DOMAIN qk : qk[j] = pk[i]
            GP == GActs(P)
            GQ == GActs(Q)
            bk == Corpus[c].back
            BackOf(gq) == LET js == {j \in DOMAIN bk : bk[j].qa = gq.a /\ bk[j].qargs = gq.args} IN
                          IF js = {} THEN [a |-> "?", args |-> <<>>]
                          ELSE LET b == bk[CHOOSE j \in js : TRUE] IN [a |-> b.pa, args |-> b.pargs]
            \* a name identifies an action only inside its agent: the action OBJECT that the variant maps
            \* back to (recorded structure pact, in the agent pag of the returned instance) must be the
            \* action of that agent in the original problem; else the variant maps back to an action that
            \* its agent does not own (e.g. to the same-named action of another agent)
            Foreign(gq) == \E j \in DOMAIN bk : /\ bk[j].qa = gq.a /\ bk[j].qargs = gq.args /\ bk[j].pa # ""
                                                 /\ ~OwnedBy(Corpus[c].MP, bk[j].pag, bk[j].pact)
            foreign == {gq \in GQ : BackOf(gq) \in GP /\ Foreign(gq)}
        IN [ok |-> kept, P |-> P, Q |-> Q, GP |-> GP, GQ |-> GQ,
            idx |-> IF kept THEN TLCEval([i \in DOMAIN pk |-> CHOOSE j \in DOMAIN qk : qk[j] = pk[i]]) ELSE <<>>,
            aux |-> {j \in DOMAIN qk : \A i \in DOMAIN pk : pk[i] # qk[j]},
            V |-> TLCEval([ga \in GP |-> {gq \in GQ \ foreign : BackOf(gq) = ga}]),
            foreign |-> foreign,
            auxacts |-> {gq \in GQ : BackOf(gq).a = ""},
            lost |-> {gq \in GQ : BackOf(gq).a # "" /\ BackOf(gq) \notin GP}]])

RP(c) == [P |-> Tab[c].P, keys |-> Corpus[c].pkeys]
RQ(c) == [P |-> Tab[c].Q, keys |-> Corpus[c].qkeys]

\* ---------- all total states over Q's ground fluents ----------
DomOfKey(R, i) == ValsOfType(R.P, Fl(R.P, R.keys[i][1]).type)
RECURSIVE StatesFrom(_,_)
StatesFrom(R, i) == IF i > Len(R.keys) THEN {<<>>}
                    ELSE {<<v>> \o t : v \in DomOfKey(R, i), t \in StatesFrom(R, i + 1)}
StatesOf(c) == IF Tab[c].ok /\ Len(Corpus[c].qkeys) > 0 THEN StatesFrom(RQ(c), 1) ELSE {}

\* TLC checks the invariant on the states of one compilation in one worker: the root state of a
\* compilation has every total state (and the pseudo-state <<>>) as successor
VARIABLES cid, st, ph
vars == <<cid, st, ph>>
Init == /\ cid \in DOMAIN Corpus
        /\ st = <<>> /\ ph = "root"
Next == /\ ph = "root" /\ ph' = "state"
        /\ st' \in StatesOf(cid) \cup {<<>>}
        /\ UNCHANGED cid
Spec == Init /\ [][Next]_vars

\* ---------- auxiliary fluents and actions ----------
Restrict(c, s) == TLCEval([i \in DOMAIN Corpus[c].pkeys |-> s[Tab[c].idx[i]]])
Base(c, s) == TLCEval([j \in DOMAIN s |-> IF j \in Tab[c].aux THEN Corpus[c].qinit[j] ELSE s[j]])
RECURSIVE Closure(_,_)
Closure(c, S) ==
   LET N == S \cup UNION {{Step(RQ(c), gq, t).s : gq \in {g \in Tab[c].auxacts : Step(RQ(c), g, t).ok}} : t \in S}
   IN IF N = S THEN S ELSE Closure(c, N)
AuxReach(c, s) == IF Tab[c].auxacts = {} THEN {s} ELSE Closure(c, {s})
Justified(c, s) == \/ Tab[c].aux = {}
                   \/ (\A j \in Tab[c].aux : s[j] = Corpus[c].qinit[j])     \* s = Base(c, s)
                   \/ s \in AuxReach(c, Base(c, s))

Report(c, clause, x) == PrintT(<<"FAIL", Corpus[c].cid, clause, x>>)
Zone(c, z) == PrintT(<<"Z", Corpus[c].cid, z>>)

\* ---------- once per compilation ----------
ObjSet(M) == {<<M.objects[i].name, M.objects[i].type>> : i \in DOMAIN M.objects}
Short(d) == d[1] \o ":" \o d[2] \o ":" \o d[4] \o (IF d[3] = "dot" THEN "." \o d[5] ELSE "")
PerCompilation(c) ==
   LET r == Corpus[c] IN
   IF r.raised # "none" THEN Report(c, "compile-raises", r.raised)
   ELSE
   /\ \A d \in DanglingActs(r.MP) \cup DanglingGoals(r.MP) : Report(c, "generator-dangling-reference", Short(d))
   /\ \A d \in DanglingActs(r.MQ) : Report(c, "dangling-fluent-in-compiled-action", Short(d))
   /\ \A d \in DanglingGoals(r.MQ) : Report(c, "dangling-fluent-in-compiled-goal", Short(d))
   /\ (Unresolvable(r.MQ) = {} \/ Report(c, "unresolvable-fluent-reference", ""))
   /\ (ObjSet(r.MP) = ObjSet(r.MQ) \/ Report(c, "objects-differ", ""))
   /\ (~Judgeable(c) \/
        /\ (Tab[c].ok \/ Report(c, "original-ground-fluent-missing", ""))
        /\ (~Tab[c].ok \/
             /\ \A gq \in Tab[c].lost : Report(c, "variant-maps-back-to-unknown-action", gq.a)
             /\ \A gq \in Tab[c].foreign : Report(c, "variant-maps-back-to-foreign-action", gq.a)
             /\ (Restrict(c, r.qinit) = r.pinit \/ Report(c, "initial-state-differs", ""))
             /\ (AnyU(r.qinit) \/ Justified(c, r.qinit) \/ Report(c, "initial-state-aux-unjustified", ""))
             /\ (~AnyU(r.qinit) \/ Report(c, "initial-value-missing", ""))))

\* ---------- in every state ----------
PerState(c, s) ==
   LET sp == Restrict(c, s) IN
   IF ~Justified(c, s) THEN TRUE
   ELSE
   /\ \A ga \in Tab[c].GP :
        LET rp == Step(RP(c), ga, sp)
            V  == Tab[c].V[ga]
            rq == TLCEval([gq \in V |-> Step(RQ(c), gq, s)])
            VA == {gq \in V : rq[gq].ok}
        IN IF rp.unspec \/ (\E gq \in V : rq[gq].unspec) THEN Zone(c, "unspec")
           ELSE IF ~rp.ok
           THEN \A gq \in VA : Report(c, "variant-applicable-original-not", gq.a)
           ELSE /\ (VA # {} \/ (IF rp.s = sp THEN Zone(c, "noop") ELSE Report(c, "original-applicable-no-variant", ga.a)))
                /\ \A gq \in VA :
                     /\ (Restrict(c, rq[gq].s) = rp.s \/ Report(c, "variant-successor-differs", gq.a))
                     /\ (Justified(c, rq[gq].s) \/ Report(c, "variant-leaves-aux-unjustified", gq.a))
                /\ (Corpus[c].comp # "cerm" \/ Cardinality(VA) <= 1 \/ Report(c, "several-variants-applicable", ga.a))
   /\ \A ga \in Tab[c].auxacts :
        LET r == Step(RQ(c), ga, s) IN
        ~r.ok \/ r.unspec \/ Restrict(c, r.s) = sp \/ Report(c, "auxiliary-action-changes-original-fluent", ga.a)
   /\ LET gp == Goal3(RP(c), sp)
          gq == Goal3(RQ(c), s)
      IN IF gp = "?" \/ gq = "?" THEN Zone(c, "goal?")
         ELSE /\ (gq # "T" \/ gp = "T" \/ Report(c, "goal-compiled-holds-original-not", ""))
              /\ (gp # "T" \/ gq = "T" \/ (\E t \in AuxReach(c, s) : Goal3(RQ(c), t) = "T")
                     \/ Report(c, "goal-original-holds-compiled-unreachable", ""))

Verdict == IF ph = "root" THEN TRUE ELSE IF st = <<>> THEN PerCompilation(cid) ELSE PerState(cid, st)
=============================================================================
