----------------------------- MODULE LinearEnum -----------------------------
(***************************************************************************)
(* G1 generator for C17.  TLC writes                                       *)
(*   IOEnv.CFGS   the problems (complete UPJ records, built by Python with *)
(*                upj.build): two bounded int fluents x, y (written by the *)
(*                action, hence non-static), a static fluent s with an     *)
(*                initial value, one action a(q) with a bounded int        *)
(*                parameter q.  The configurations vary the sign class of  *)
(*                everything the analysis has to take a sign from: q       *)
(*                strictly negative / sign-straddling / strictly positive  *)
(*                / touching zero, s negative / positive / fractional.     *)
(*   IOEnv.CASES  the numeric expressions (UPJ expression records) over    *)
(*                the leaves x, y, s, q, 0, 1, -1, 2, 1/2 and + - * /:     *)
(*                  Depth >= 1: every leaf and every op(leaf, leaf)        *)
(*                  Depth >= 2: op(D1, leaf) and op(leaf, D1)              *)
(*                  Depth >= 3: op(D1', D1') with D1' = op(leaf', leaf')   *)
(*                              over the leaves x, y, s, q, -1, 2 (all of  *)
(*                              depth 2 over the sign-carrying leaves;     *)
(*                              only the expressions that mention q, and   *)
(*                              on configuration 1 only)                   *)
(*                restricted to expressions that mention x or y (an        *)
(*                expression without fluents has nothing to be judged)     *)
(*                and that contain no division by a literally zero closed  *)
(*                sub-expression (the ExpressionManager refuses them).     *)
(*                Each case names the configurations it is to be run on    *)
(*                (RunOn: one per class of configurations that declare     *)
(*                everything the expression mentions identically).         *)
(* Constants: Depth, Tier ("quick" | "thorough" selects the configs).      *)
(***************************************************************************)
EXTENDS LinearAnalysis, Json, IOUtils, SequencesExt
CONSTANTS Depth, Tier

\* ---------- expressions ----------
EC(n, d) == [op |-> "const", args |-> <<>>, name |-> "", v |-> NV(n, d), vars |-> <<>>]
EF(f)    == [op |-> "fluent", args |-> <<>>, name |-> f, v |-> UNDEF, vars |-> <<>>]
EP(p)    == [op |-> "param", args |-> <<>>, name |-> p, v |-> UNDEF, vars |-> <<>>]
EB(o, a, b) == [op |-> o, args |-> <<a, b>>, name |-> "", v |-> UNDEF, vars |-> <<>>]
ENone    == [op |-> "none", args |-> <<>>, name |-> "", v |-> UNDEF, vars |-> <<>>]
ETrue    == [op |-> "const", args |-> <<>>, name |-> "", v |-> BV(TRUE), vars |-> <<>>]

Leaves == {EF("x"), EF("y"), EF("s"), EP("q"), EC(0, 1), EC(1, 1), EC(0 - 1, 1), EC(2, 1), EC(1, 2)}
Ops == {"plus", "minus", "times", "div"}

RECURSIVE Closed(_)
Closed(e) == e.op = "const" \/ (e.op \in Ops /\ \A i \in DOMAIN e.args : Closed(e.args[i]))
NoCtx == [P |-> [ifuns |-> <<>>], keys |-> <<>>]
\* a division whose divisor is a closed expression of value zero (or itself undefined)
RECURSIVE ZeroDiv(_)
ZeroDiv(e) == \/ \E i \in DOMAIN e.args : ZeroDiv(e.args[i])
              \/ /\ e.op = "div"
                 /\ Closed(e.args[2])
                 /\ LET v == Eval(NoCtx, e.args[2], <<>>, <<>>) IN IsU(v) \/ v.n = 0
Judged(e) == FluentNames(e) \cap {"x", "y"} # {} /\ ~ZeroDiv(e)

D1  == {EB(o, a, b) : o \in Ops, a \in Leaves, b \in Leaves}
\* (TLC evaluates every constant definition at start-up: the guards keep unused levels empty)
D2a == IF Depth < 2 THEN {}
       ELSE {EB(o, a, b) : o \in Ops, a \in D1, b \in Leaves} \cup {EB(o, a, b) : o \in Ops, a \in Leaves, b \in D1}
\* the full depth 2 over the leaves that carry a sign or a variable: x, y, s, q, -1, 2
LeavesB == Leaves \ {EC(0, 1), EC(1, 1), EC(1, 2)}
D1B == {EB(o, a, b) : o \in Ops, a \in LeavesB, b \in LeavesB}
D2b == IF Depth < 3 THEN {} ELSE {EB(o, a, b) : o \in Ops, a \in D1B, b \in D1B}
Space == {e \in Leaves \cup D1 \cup D2a \cup D2b : Judged(e)}

\* ---------- problems ----------
IntT(lo, hi) == [k |-> "int", lo |-> NV(lo, 1), hi |-> NV(hi, 1)]
RealT(lo, hi) == [k |-> "real", lo |-> NV(lo, 1), hi |-> NV(hi, 1)]
FluentR(name, t, def) == [name |-> name, type |-> t, sig |-> <<>>, default |-> def]
IncR(f, n) == [kind |-> "inc", f |-> [name |-> f, args |-> <<>>], v |-> EC(n, 1), c |-> ETrue, forall |-> <<>>]
NoMetric == [kind |-> "none", costs |-> <<>>, default |-> ENone, expr |-> ENone, goals |-> <<>>]
\* the constant the action adds: 1, or a value of the fluent's type when 1 is none (UP type-checks it)
Step(r) == IF r[1] <= 1 /\ 1 <= r[2] THEN 1 ELSE r[2]
\* x in xr, y in yr (both increased by the action: non-static), s static with value sv, q in qr
Prob(xr, yr, qr, st, sv) ==
   [name |-> "c17", types |-> <<>>, objects |-> <<>>,
    fluents |-> <<FluentR("x", IntT(xr[1], xr[2]), NV(xr[1], 1)),
                  FluentR("y", IntT(yr[1], yr[2]), NV(yr[1], 1)),
                  FluentR("s", st, sv)>>,
    init |-> <<>>,
    actions |-> <<[name |-> "a", kind |-> "inst",
                   params |-> <<[name |-> "q", type |-> IntT(qr[1], qr[2])]>>,
                   pre |-> <<>>, effects |-> <<IncR("x", Step(xr)), IncR("y", Step(yr))>>,
                   conds |-> <<>>, dur |-> NONE, sim |-> FALSE]>>,
    goals |-> <<>>, invariants |-> <<>>, traj |-> <<>>, timed_goals |-> <<>>, timed_effects |-> <<>>,
    metric |-> NoMetric, nmetrics |-> 0, ifuns |-> <<>>]
\* qtag: the sign class of the parameter's range (part of violation signatures)
QTag(qr) == IF qr[2] < 0 THEN "q<0" ELSE IF qr[1] > 0 THEN "q>0" ELSE IF qr[1] = 0 THEN "q>=0"
            ELSE IF qr[2] = 0 THEN "q<=0" ELSE "q<>0"
Cfg(tag, xr, yr, qr, st, sv) == [tag |-> tag, qtag |-> QTag(qr), scope |-> "a", P |-> Prob(xr, yr, qr, st, sv)]
S5 == IntT(0 - 5, 5)
QuickCfgs == <<
   Cfg("q<0 s<0", <<0 - 1, 1>>, <<1, 3>>, <<0 - 3, 0 - 1>>, S5, NV(0 - 2, 1)),
   Cfg("q straddles 0 s>0", <<0 - 1, 1>>, <<1, 3>>, <<0 - 1, 2>>, S5, NV(2, 1)),
   Cfg("q>0 s<0", <<0 - 1, 1>>, <<1, 3>>, <<1, 3>>, S5, NV(0 - 2, 1))>>
MoreCfgs == <<
   Cfg("q<0 s>0 x<0 y>=0 (4 x 3 values)", <<0 - 4, 0 - 1>>, <<0, 2>>, <<0 - 3, 0 - 1>>, S5, NV(2, 1)),
   Cfg("q>=0 s=-1/2", <<0 - 1, 1>>, <<1, 3>>, <<0, 2>>, RealT(0 - 5, 5), NV(0 - 1, 2)),
   Cfg("q<=0 s=1/2", <<0 - 1, 1>>, <<1, 3>>, <<0 - 2, 0>>, RealT(0 - 5, 5), NV(1, 2))>>
Cfgs == IF Tier = "quick" THEN QuickCfgs ELSE QuickCfgs \o MoreCfgs

\* ---------- calibration: the definitions can be false, and are false where they should ----------
X == EF("x")
Y == EF("y")
Q == EP("q")
Calibrated ==
   LET P == QuickCfgs[1].P                \* q in [-3,-1], s = -2
       G == GridOf(P, "a")
       P2 == QuickCfgs[2].P               \* q in [-1,2]
       G2 == GridOf(P2, "a")
   IN /\ Len(G.pts) = 3 * 3 * 3 /\ G.ns = {1, 2}
      /\ Monotone(P, X, "x", "up", G) /\ ~Monotone(P, X, "x", "down", G)
      /\ Monotone(P, X, "y", "up", G) /\ Monotone(P, X, "y", "down", G)
      /\ Monotone(P, EB("div", X, Q), "x", "down", G) /\ ~Monotone(P, EB("div", X, Q), "x", "up", G)
      /\ Monotone(P, EB("times", X, EF("s")), "x", "down", G) /\ ~Monotone(P, EB("times", X, EF("s")), "x", "up", G)
      /\ ~Monotone(P2, EB("div", X, Q), "x", "down", G2) /\ ~Monotone(P2, EB("div", X, Q), "x", "up", G2)
      /\ Affine(P, EB("div", X, Q), G) /\ Affine(P, EB("minus", EB("times", X, Q), Y), G)
      /\ ~Affine(P, EB("times", X, X), G) /\ ~Affine(P, EB("times", X, Y), G)
      /\ ~Affine(P, EB("div", EC(1, 1), Y), G) /\ ~Affine(P, EB("div", X, Y), G)
      /\ Affine(P, EB("times", EB("minus", X, X), Y), G)     \* syntactic product, semantically constant
      /\ An(P, "a", EB("div", X, Q), "literal") = Lin({"x"}, {})
      /\ An(P, "a", EB("div", X, Q), "bounds") = Lin({}, {"x"})
      /\ An(P2, "a", EB("div", X, Q), "bounds") = Lin({"x"}, {"x"})
      /\ An(P, "a", EB("times", X, Q), "bounds") = Lin({}, {"x"})
      /\ An(P, "a", EB("div", X, EF("s")), "literal") = Lin({}, {"x"})
      /\ An(P, "a", EB("minus", Y, EB("div", X, EC(2, 1))), "bounds") = Lin({"y"}, {"x"})
      /\ An(P, "a", EB("times", X, Y), "bounds") = NotLin
      /\ ~Sound(P, EB("div", X, Q), G, Lin({"x"}, {})) /\ Sound(P, EB("div", X, Q), G, Lin({}, {"x"}))
      /\ ~Sound(P, X, G, Lin({}, {})) /\ ~Sound(P, EB("times", X, Y), G, Lin({"x", "y"}, {"x", "y"}))
ASSUME Calibrated

ASSUME ndJsonSerialize(IOEnv.CFGS, Cfgs)
\* ---------- which configurations an expression is run on ----------
\* Two configurations that declare everything e mentions identically give the same case: e is run
\* on the first configuration of every such class only.
RECURSIVE ParamNames(_)
ParamNames(e) == (IF e.op = "param" THEN {e.name} ELSE {}) \cup UNION {ParamNames(e.args[i]) : i \in DOMAIN e.args}
Decl(c, n) == LET P == Cfgs[c].P IN
              IF n \in FlNames(P) THEN [f |-> P.fluents[FlIdx(P, n)], st |-> IsStatic(P, FlIdx(P, n))]
              ELSE [f |-> ParType(P, Cfgs[c].scope, n), st |-> FALSE]
SameOn(e, c1, c2) == \A n \in FluentNames(e) \cup ParamNames(e) : Decl(c1, n) = Decl(c2, n)
RunOn(e) == {c \in DOMAIN Cfgs : \A c2 \in 1..(c - 1) : ~SameOn(e, c, c2)}
\* the full depth 2 (Depth = 3) is only run on the first configuration, and only where e mentions the parameter
Big(e) == Size(e) > 5
Case(e) == [e |-> e, cfgs |-> SetToSeq(IF Big(e) THEN RunOn(e) \cap {1} ELSE RunOn(e))]
Cases == {Case(e) : e \in {f \in Space : Big(f) => "q" \in ParamNames(f)}}

ASSUME ndJsonSerialize(IOEnv.CASES, SetToSeq(Cases))
ASSUME PrintT(<<"EMITTED", Len(Cfgs), Cardinality(Cases)>>)
VARIABLE dummy
Init == dummy = 0
Next == UNCHANGED dummy
=============================================================================
