----------------------------- MODULE LinearTrace -----------------------------
(***************************************************************************)
(* C17 judge.  Every observation recorded from the real code               *)
(*    [id, cfg, e, res]                                                    *)
(* is judged against Linear!Violations on the grid of its configuration:   *)
(*   cfg  index into IOEnv.CFGS (the file LinearEnum wrote);               *)
(*   e    index into IOEnv.NODES, the hash-consed table of the UPJ         *)
(*        projections of the FNodes that were handed to the analysis       *)
(*        (a node = [op, a = indices of the arguments, name, v]; Expr      *)
(*        rebuilds the UPJ expression record UPExpr!Eval works on);        *)
(*   res  [k = "ok" | "exc", l = is_linear, p / n = names of the positive  *)
(*        / negative fluents, x = exception class, s = "T" | "F" | "E" |   *)
(*        "-": does problem.kind keep SIMPLE_NUMERIC_PLANNING once         *)
(*        `e <= 0` is a precondition ("-": not asked)]: what               *)
(*        LinearChecker(problem).get_fluents(e) returned.                  *)
(*                                                                         *)
(* The observations are cut into NChunks chunks; a behaviour judges the    *)
(* observations of one chunk one after the other (TLC's workers share the  *)
(* chunks); the driver checks that distinct states = NChunks + number of   *)
(* observations.  Verdicts are total: Verdict is always TRUE and prints    *)
(* <<"FAIL", id, clause, fluent>> for every violated clause (plus one      *)
(* <<"FEAT", id, feature, "">> naming the input feature for signatures)    *)
(* and <<"U", id, why, "">> for an unspecified one.                        *)
(* With IOEnv.T1 = "1" the same run also carries the design check T1 of    *)
(* LinearAnalysis on every judged expression: <<"T1-REPAIR", ..>> (the     *)
(* repaired algorithm is unsound: must never appear), <<"T1-ASWRITTEN",    *)
(* ..>> (the algorithm as written is unsound here), <<"T1-DIFF", ..>> (the *)
(* as-written model and the real answer differ: counted, never a verdict). *)
(***************************************************************************)
EXTENDS LinearAnalysis, Json, IOUtils

CfgsIn == ndJsonDeserialize(IOEnv.CFGS)
Nodes  == ndJsonDeserialize(IOEnv.NODES)
Obs    == ndJsonDeserialize(IOEnv.OBS)
NChunks == 64
\* "1": also run the design check T1 of LinearAnalysis on every judged expression
WithT1 == IOEnv.T1 = "1"
Grids  == TLCEval([c \in DOMAIN CfgsIn |-> GridOf(CfgsIn[c].P, CfgsIn[c].scope)])
SetOf(s) == {s[i] : i \in DOMAIN s}
RECURSIVE Expr(_)
Expr(i) == LET n == Nodes[i] IN
   [op |-> n.op, args |-> [j \in DOMAIN n.a |-> Expr(n.a[j])], name |-> n.name, v |-> n.v, vars |-> <<>>]

VARIABLES chunk, pos, out
vars == <<chunk, pos, out>>

\* the verdict on the real answer: a set of <<tag, a, b>>; every FAIL is accompanied by the
\* input feature DivFeature (the driver puts it into the signature)
Real(o, e, P, G, V) ==
   LET ans == [lin |-> o.res.l, pos |-> SetOf(o.res.p), neg |-> SetOf(o.res.n)]
       fails == IF o.res.k = "exc"
                THEN (IF DefinedOnGrid(V) THEN {<<"FAIL", "raises-on-defined-expression", o.res.x>>} ELSE {})
                ELSE {<<"FAIL", c[1], c[2]>> : c \in Violations(P, G, V, ans)}
                     \cup (IF o.res.s = "T" /\ ~AffineV(G, V) THEN {<<"FAIL", "kind-simple-numeric-not-affine", "">>} ELSE {})
   IN fails
      \cup (IF fails # {} THEN {<<"FEAT", DivFeature(P, e, G), "">>} ELSE {})
      \cup (IF o.res.k = "exc" /\ ~DefinedOnGrid(V) THEN {<<"U", "raises-" \o o.res.x, "">>} ELSE {})
      \cup (IF o.res.k = "ok" /\ ~DefinedSomewhere(V) THEN {<<"U", "undefined-everywhere", "">>} ELSE {})

\* T1: the two variants of the implementation-shaped analysis against the same definition
Design(o, e, P, G, V) ==
   LET sc  == CfgsIn[o.cfg].scope
       lit == An(P, sc, e, "literal")
       bnd == An(P, sc, e, "bounds")
   IN {<<"T1-REPAIR", c[1], c[2]>> : c \in Violations(P, G, V, bnd)}
      \cup {<<"T1-ASWRITTEN", c[1], c[2]>> : c \in Violations(P, G, V, lit)}
      \cup (IF o.res.k = "ok" /\ (lit.lin # o.res.l \/ (lit.lin /\ (lit.pos # SetOf(o.res.p) \/ lit.neg # SetOf(o.res.n))))
            THEN {<<"T1-DIFF", "", "">>} ELSE {})

Judge(o) ==
   LET P == CfgsIn[o.cfg].P
       G == Grids[o.cfg]
       e == Expr(o.e)
       V == ValTab(P, e, G)
   IN Real(o, e, P, G, V) \cup (IF WithT1 THEN Design(o, e, P, G, V) ELSE {})

\* chunk c holds the observations c, c + NChunks, c + 2 NChunks, ...
ObsAt(c, k) == c + (k - 1) * NChunks
Init == chunk \in 1..NChunks /\ pos = 0 /\ out = {}
Next == /\ ObsAt(chunk, pos + 1) <= Len(Obs)
        /\ pos' = pos + 1
        /\ out' = Judge(Obs[ObsAt(chunk, pos + 1)])
        /\ chunk' = chunk
TraceSpec == Init /\ [][Next]_vars

Verdict == pos > 0 => \A c \in out : PrintT(<<c[1], Obs[ObsAt(chunk, pos)].id, c[2], c[3]>>)
=============================================================================
