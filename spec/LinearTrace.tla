----------------------------- MODULE LinearTrace -----------------------------
(***************************************************************************)
(* C17 judge.  Every observation recorded from the real code               *)
(*    [id, cfg, e, res]                                                    *)
(* (cfg = index into IOEnv.CFGS, the file LinearEnum wrote; e = the UPJ    *)
(* projection of the FNode that was handed to the analysis; res = what     *)
(* LinearChecker(problem).get_fluents(e) returned, or the exception class, *)
(* plus -- where the driver also asked -- whether problem.kind still says  *)
(* SIMPLE_NUMERIC_PLANNING after `e <= 0` became a precondition) is judged *)
(* against Linear!Violations on the grid of its configuration.             *)
(*                                                                         *)
(* One observation = one behaviour of two states (pending -> done), so     *)
(* that TLC's workers share the evaluation; the driver checks that         *)
(* distinct states = 2 * number of observations.  Verdicts are total:      *)
(* Verdict is always TRUE and prints <<"FAIL", id, clause, fluent>> for    *)
(* every violated clause and <<"U", id, why, "">> for an unspecified one.  *)
(* With IOEnv.T1 = "1" the same run also carries the design check T1 of    *)
(* LinearAnalysis on every judged expression: <<"T1-REPAIR", ..>> (the     *)
(* repaired algorithm is unsound: must never appear), <<"T1-ASWRITTEN",    *)
(* ..>> (the algorithm as written is unsound here), <<"T1-DIFF", ..>> (the *)
(* as-written model and the real answer differ: counted, never a verdict). *)
(***************************************************************************)
EXTENDS LinearAnalysis, Json, IOUtils

CfgsIn == ndJsonDeserialize(IOEnv.CFGS)
Obs    == ndJsonDeserialize(IOEnv.OBS)
\* "1": also run the design check T1 of LinearAnalysis on every judged expression
WithT1 == IOEnv.T1 = "1"
Grids  == TLCEval([c \in DOMAIN CfgsIn |-> GridOf(CfgsIn[c].P, CfgsIn[c].scope)])
SetOf(s) == {s[i] : i \in DOMAIN s}

VARIABLES oid, out
vars == <<oid, out>>

\* the verdict on the real answer: a set of <<tag, a, b>>; every FAIL is accompanied by the
\* input feature DivFeature (the driver puts it into the signature)
Real(o, P, G, V) ==
   LET ans == [lin |-> o.res.lin, pos |-> SetOf(o.res.pos), neg |-> SetOf(o.res.neg)]
       fails == IF o.res.k = "exc"
                THEN (IF DefinedOnGrid(V) THEN {<<"FAIL", "raises-on-defined-expression", o.res.exc>>} ELSE {})
                ELSE {<<"FAIL", c[1], c[2]>> : c \in Violations(P, G, V, ans)}
                     \cup (IF o.res.snp = "T" /\ ~AffineV(G, V) THEN {<<"FAIL", "kind-simple-numeric-not-affine", "">>} ELSE {})
   IN fails
      \cup (IF fails # {} THEN {<<"FEAT", DivFeature(P, o.e, G), "">>} ELSE {})
      \cup (IF o.res.k = "exc" /\ ~DefinedOnGrid(V) THEN {<<"U", "raises-" \o o.res.exc, "">>} ELSE {})
      \cup (IF o.res.k = "ok" /\ ~DefinedSomewhere(V) THEN {<<"U", "undefined-everywhere", "">>} ELSE {})

\* T1: the two variants of the implementation-shaped analysis against the same definition
Design(o, P, G, V) ==
   LET sc  == CfgsIn[o.cfg].scope
       lit == An(P, sc, o.e, "literal")
       bnd == An(P, sc, o.e, "bounds")
   IN {<<"T1-REPAIR", c[1], c[2]>> : c \in Violations(P, G, V, bnd)}
      \cup {<<"T1-ASWRITTEN", c[1], c[2]>> : c \in Violations(P, G, V, lit)}
      \cup (IF o.res.k = "ok" /\ (lit.lin # o.res.lin \/ lit.pos # SetOf(o.res.pos) \/ lit.neg # SetOf(o.res.neg))
            THEN {<<"T1-DIFF", "", "">>} ELSE {})

Judge(o) ==
   LET P == CfgsIn[o.cfg].P
       G == Grids[o.cfg]
       V == ValTab(P, o.e, G)
   IN Real(o, P, G, V) \cup (IF WithT1 THEN Design(o, P, G, V) ELSE {})

Init == oid \in DOMAIN Obs /\ out = [st |-> "pending", v |-> {}]
Next == /\ out.st = "pending"
        /\ out' = [st |-> "done", v |-> Judge(Obs[oid])]
        /\ oid' = oid
TraceSpec == Init /\ [][Next]_vars

Verdict == out.st = "done" => \A c \in out.v : PrintT(<<c[1], Obs[oid].id, c[2], c[3]>>)
=============================================================================
