---------------------------- MODULE ModelStoreMenu ----------------------------
(***************************************************************************)
(* The case space of C23 (G1): value menu, target types, storing calls and *)
(* the call histories built around every (call, target type, value) case.  *)
(* Shared by the design check (MCModelStore) and the generator             *)
(* (ModelStoreEnum).                                                       *)
(***************************************************************************)
EXTENDS ModelStore
CONSTANT Depth      \* 1: one case call per history;  2: additionally the histories with two case calls

TrueE == CE(BV(TRUE))
ConstVals == {TrueE, CE(Z(2)), CE(Z(5)), CE(Q(7, 2)), CE(Z(9))}
ObjVals   == {ObjE(Decl.objects[i].name) : i \in DOMAIN Decl.objects}
FluVals   == {FlE("g_" \o n) : n \in Range(TypeNames)}
ParVals   == {ParE("p_" \o n) : n \in Range(TypeNames)}
Vals      == ConstVals \cup ObjVals \cup FluVals \cup ParVals
Targets   == Range(TargetNames)

F(n) == "f_" \o n
G(n) == "g_" \o n
\* a canonical compatible constant per target type
Good(n) == CASE n = "bool" -> TrueE
             [] n = "int03" -> CE(Z(2))
             [] n \in {"real", "real05"} -> CE(Q(7, 2))
             [] n \in {"T", "T1"} -> ObjE("oT1")
             [] n = "U" -> ObjE("oU")
\* a second compatible constant (differs from Good where the type has two values in the menu)
Good2(n) == CASE n = "bool" -> CE(BV(FALSE))
              [] n = "int03" -> CE(Z(3))
              [] n \in {"real", "real05"} -> CE(Z(2))
              [] n = "T" -> ObjE("oT")
              [] n = "T1" -> ObjE("oT1")
              [] n = "U" -> ObjE("oU")
Other(n) == IF n = "bool" THEN "g_U" ELSE "g_bool"
Conts == {"inst", "dur", "timed"}
Kinds == {"assign", "inc", "dec"}

\* ---------- histories: [call, tt, j, steps]; steps[j] is the case's call ----------
H(call, n, j, steps) == [call |-> call, tt |-> n, j |-> j, steps |-> steps]
P0 == NewProblem(TNone, ENone)
\* Problem(initial_defaults={t: e}); then the default reaches a new fluent of type t, not one of
\* another type, an explicit per-fluent default wins, and an explicit initial value wins over both
HTDefault(n, e) == H("new_problem", n, 1,
   << NewProblem(TypeByName(n), e), AddFluent(F(n), ENone), AddFluent(Other(n), ENone), AddFluent(G(n), Good(n)),
      SetInit(F(n), Good2(n)) >>)
\* add_fluent(f, default_initial_value=e) on a problem that already stores something
HDefault(n, e) == H("add_fluent", n, 4,
   << P0, AddFluent(Other(n), ENone), SetInit(Other(n), Good(IF n = "bool" THEN "U" ELSE "bool")),
      AddFluent(F(n), e), AddFluent(G(n), Good(n)), SetInit(G(n), Good2(n)) >>)
\* set_initial_value(f, e) on a fluent without / with a previous value
HSetInit(n, e) == H("set_init", n, 4,
   << P0, AddFluent(Other(n), ENone), AddFluent(F(n), ENone),
      SetInit(F(n), e), SetInit(F(n), Good(n)), SetInit(F(n), e) >>)
\* effects of an action (instantaneous; durative at StartTiming) -- no problem involved
HEffect(c, k, n, e) == H("add_effect:" \o c \o ":" \o k, n, 2,
   << AddEffect(c, "assign", Other(n), Good(IF n = "bool" THEN "U" ELSE "bool")),
      AddEffect(c, k, F(n), e), AddEffect(c, "assign", F(n), Good(n)) >>)
\* timed effects of the problem (GlobalStartTiming + 5)
HTimed(k, n, e) == H("add_effect:timed:" \o k, n, 5,
   << P0, AddFluent(Other(n), ENone), AddFluent(F(n), ENone),
      AddEffect("timed", "assign", Other(n), Good(IF n = "bool" THEN "U" ELSE "bool")),
      AddEffect("timed", k, F(n), e), AddEffect("timed", "assign", F(n), Good(n)) >>)
HInstance(n, e) == H("instance", n, 1, << Instance(TypeByName(n), e), Instance(TypeByName(n), Good(n)) >>)

Histories ==
   {HTDefault(n, e) : n \in Targets, e \in Vals} \cup {HDefault(n, e) : n \in Targets, e \in Vals}
   \cup {HSetInit(n, e) : n \in Targets, e \in Vals}
   \cup UNION {{HEffect(c, k, n, e) : n \in Targets, e \in Vals} : c \in {"inst", "dur"}, k \in Kinds}
   \cup UNION {{HTimed(k, n, e) : n \in Targets, e \in Vals} : k \in Kinds}
   \cup {HInstance(n, e) : n \in Targets, e \in Vals}

\* ---------- two case calls in a row (Depth = 2): acceptance does not depend on what an earlier,
\* possibly rejected, call of the same kind did; a rejected call leaves a non-trivial model unchanged
Vals2(n) == {Good2(n), IF n = "bool" THEN CE(Z(2)) ELSE TrueE, FlE(G(n)), CE(Z(9))}
H2TDefault(n, e, e2) == H("new_problem", n, 1,
   << NewProblem(TypeByName(n), e), AddFluent(F(n), e2), AddFluent(G(n), ENone), SetInit(G(n), e2) >>)
H2Default(n, e, e2) == H("add_fluent", n, 3,
   << P0, AddFluent(Other(n), Good(IF n = "bool" THEN "U" ELSE "bool")), AddFluent(F(n), e), AddFluent(G(n), e2),
      SetInit(Other(n), Good2(IF n = "bool" THEN "U" ELSE "bool")) >>)
H2SetInit(n, e, e2) == H("set_init", n, 5,
   << P0, AddFluent(F(n), Good(n)), AddFluent(G(n), ENone), SetInit(F(n), Good2(n)),
      SetInit(F(n), e), SetInit(F(n), e2), SetInit(G(n), e) >>)
H2Effect(c, k, n, e, e2) == H("add_effect:" \o c \o ":" \o k, n, 1,
   << AddEffect(c, k, F(n), e), AddEffect(c, k, G(n), e2), AddEffect(c, "assign", Other(n), Good(IF n = "bool" THEN "U" ELSE "bool")) >>)
H2Timed(k, n, e, e2) == H("add_effect:timed:" \o k, n, 4,
   << P0, AddFluent(F(n), ENone), AddFluent(G(n), ENone),
      AddEffect("timed", k, F(n), e), AddEffect("timed", k, G(n), e2) >>)
H2Instance(n, e, e2) == H("instance", n, 2, << Instance(TypeByName(n), Good(n)), Instance(TypeByName(n), e), Instance(TypeByName(n), e2) >>)
Histories2 ==
   UNION {{H2TDefault(n, e, e2) : e \in Vals, e2 \in Vals2(n)} \cup {H2Default(n, e, e2) : e \in Vals, e2 \in Vals2(n)}
          \cup {H2SetInit(n, e, e2) : e \in Vals, e2 \in Vals2(n)} \cup {H2Instance(n, e, e2) : e \in Vals, e2 \in Vals2(n)}
          \cup UNION {{H2Effect(c, k, n, e, e2) : e \in Vals, e2 \in Vals2(n)} : c \in {"inst", "dur"}, k \in Kinds}
          \cup UNION {{H2Timed(k, n, e, e2) : e \in Vals, e2 \in Vals2(n)} : k \in Kinds}
          : n \in Targets}
HistSet == IF Depth = 1 THEN Histories ELSE Histories \cup Histories2
=============================================================================
