------------------------------- MODULE Factory -------------------------------
(***************************************************************************)
(* Engine selection of unified_planning.engines.factory.Factory            *)
(* (property C32): _get_engine_class / _engine_satisfies_conditions /      *)
(* _get_engine behind the public entry points OneshotPlanner,              *)
(* AnytimePlanner, PlanValidator, Compiler (single and pipeline),          *)
(* SequentialSimulator, Replanner, PlanRepairer, PortfolioSelector,        *)
(* ActionSelector and get_all_applicable_engines.                          *)
(*                                                                         *)
(* The factory is a function of (registry, preference list, request); it   *)
(* has no other state, so the specification is a set of definitions.       *)
(*                                                                         *)
(*  reg    function: engine id (positive integer) -> engine record          *)
(*           [modes  operation modes the class implements (is_<mode>())    *)
(*            feats  features of supported_kind()                          *)
(*            plans  plan kinds with supports_plan                         *)
(*            comps  compilation kinds with supports_compilation           *)
(*            opt    optimality guarantees with satisfies                  *)
(*            any    anytime guarantees with ensures]                      *)
(*         (READ FROM THE REAL CLASSES by the driver, never written here)   *)
(*  prefs  the preference list (sequence of engine ids)                    *)
(*  r      request [mode, feats, ck, pk, og, ag]; "" = not requested        *)
(*                                                                         *)
(* Two layers:                                                             *)
(*  - Spec layer (the property): Qualifies(e, r) = e implements the mode,  *)
(*    supports the kind and every requested requirement; Select = the      *)
(*    first entry of the preference list whose engine qualifies, NoEngine  *)
(*    when there is none (<=> UPNoSuitableEngineAvailableException).  A         *)
(*    pipeline for compilation kinds cks is the sequence of Select-ed      *)
(*    compilers where stage i is asked for the kind produced by stage i-1  *)
(*    (ChainOK).                                                           *)
(*  - Impl layer: _engine_satisfies_conditions as written (mode test, one  *)
(*    branch per operation mode testing only that mode's requirements,     *)
(*    then supports), the scan of _get_engine_class over the preference    *)
(*    list, and the loop of _get_engine that threads problem_kind through  *)
(*    resulting_problem_kind.  MCFactory checks Impl against Spec.         *)
(*                                                                         *)
(* All kinds are of the latest ProblemKind version and contain no          *)
(* deprecated feature, so `kind <= supported_kind()` is set inclusion of   *)
(* the feature sets (the version arithmetic is property C33's business).   *)
(***************************************************************************)
EXTENDS Integers, Sequences, FiniteSets, TLC

Range(s) == {s[i] : i \in DOMAIN s}

Modes == {"oneshot_planner", "anytime_planner", "plan_validator", "portfolio_selector", "compiler",
          "sequential_simulator", "replanner", "plan_repairer", "action_selector"}

None == ""       \* requirement not requested
NoEngine == 0    \* no engine (engines are identified by positive integers: index in the registry)

Req(mode, feats, ck, pk, og, ag) == [mode |-> mode, feats |-> feats, ck |-> ck, pk |-> pk, og |-> og, ag |-> ag]
CompReq(feats, ck) == Req("compiler", feats, ck, None, None, None)

\* which requirement may accompany which operation mode (docstring of get_all_applicable_engines;
\* the public entry points offer exactly these parameters)
WellFormed(r) ==
   /\ r.mode \in Modes
   /\ (r.og # None => r.mode \in {"oneshot_planner", "replanner", "plan_repairer", "portfolio_selector"})
   /\ (r.ag # None => r.mode = "anytime_planner")
   /\ (r.pk # None => r.mode \in {"plan_validator", "plan_repairer"})
   /\ (r.ck # None => r.mode = "compiler")

-----------------------------------------------------------------------------
(* Spec layer *)
Supports(e, feats) == feats \subseteq e.feats

Qualifies(e, r) ==
   /\ r.mode \in e.modes
   /\ Supports(e, r.feats)
   /\ (r.ck # None => r.ck \in e.comps)
   /\ (r.pk # None => r.pk \in e.plans)
   /\ (r.og # None => r.og \in e.opt)
   /\ (r.ag # None => r.ag \in e.any)

\* name of the first clause of Qualifies that e fails ("" if it qualifies)
Lacks(e, r) ==
   IF r.mode \notin e.modes THEN "mode"
   ELSE IF ~Supports(e, r.feats) THEN "problem-kind"
   ELSE IF r.ck # None /\ r.ck \notin e.comps THEN "compilation-kind"
   ELSE IF r.pk # None /\ r.pk \notin e.plans THEN "plan-kind"
   ELSE IF r.og # None /\ r.og \notin e.opt THEN "optimality-guarantee"
   ELSE IF r.ag # None /\ r.ag \notin e.any THEN "anytime-guarantee"
   ELSE ""

QualIdx(reg, prefs, r) == {i \in DOMAIN prefs : Qualifies(reg[prefs[i]], r)}

Select(reg, prefs, r) ==
   LET q == QualIdx(reg, prefs, r)
   IN IF q = {} THEN NoEngine ELSE prefs[CHOOSE i \in q : \A j \in q : i <= j]

\* get_all_applicable_engines: the names of the preference list that qualify
SelectAll(reg, prefs, r) == {prefs[i] : i \in QualIdx(reg, prefs, r)}

\* resulting kinds: rk[<<engine, compilation kind>>] is a sequence of rows [in, out] recorded from the
\* real resulting_problem_kind: for the kind with features `in` it returned
\* out = [k |-> "kind", f |-> features, x |-> ""] or raised, out = [k |-> "exc", f |-> {}, x |-> class]
HasRK(rk, n, feats, ck) == <<n, ck>> \in DOMAIN rk /\ \E j \in DOMAIN rk[<<n, ck>>] : rk[<<n, ck>>][j].in = feats
RK(rk, n, feats, ck) == LET rows == rk[<<n, ck>>] IN rows[CHOOSE j \in DOMAIN rows : rows[j].in = feats].out

\* the pipeline for compilation kinds cks from kind feats:
\*   [k |-> "pipeline", stages, kinds]   stages[i] selected for kinds[i], kinds[i+1] produced by stage i
\*   [k |-> "none", at |-> i]            no engine qualifies at stage i
\*   [k |-> "rk-raises", at |-> i, x]    resulting_problem_kind of stage i raises (nothing can be said)
RECURSIVE PipeFrom(_, _, _, _, _, _, _, _)
PipeFrom(reg, prefs, rk, cks, i, feats, stages, kinds) ==
   IF i > Len(cks) THEN [k |-> "pipeline", stages |-> stages, kinds |-> kinds, at |-> 0, x |-> ""]
   ELSE LET n == Select(reg, prefs, CompReq(feats, cks[i]))
        IN IF n = NoEngine THEN [k |-> "none", stages |-> stages, kinds |-> Append(kinds, feats), at |-> i, x |-> ""]
           ELSE LET out == RK(rk, n, feats, cks[i])
                IN IF out.k = "exc"
                   THEN [k |-> "rk-raises", stages |-> Append(stages, n), kinds |-> Append(kinds, feats), at |-> i, x |-> out.x]
                   ELSE PipeFrom(reg, prefs, rk, cks, i + 1, out.f, Append(stages, n), Append(kinds, feats))
Pipe(reg, prefs, rk, feats, cks) == PipeFrom(reg, prefs, rk, cks, 1, feats, <<>>, <<>>)

\* the property's pipeline clause, stated on an arbitrary answer: every chosen compiler
\* qualifies for the kind produced by the compilers before it (feats for the first one)
RECURSIVE ChainFrom(_, _, _, _, _, _)
ChainFrom(reg, rk, cks, stages, i, feats) ==
   \/ i > Len(stages)
   \/ /\ Qualifies(reg[stages[i]], CompReq(feats, cks[i]))
      /\ \/ i = Len(stages)
         \/ /\ HasRK(rk, stages[i], feats, cks[i])
            /\ RK(rk, stages[i], feats, cks[i]).k = "kind"
            /\ ChainFrom(reg, rk, cks, stages, i + 1, RK(rk, stages[i], feats, cks[i]).f)
ChainOK(reg, rk, feats, cks, stages) == Len(stages) <= Len(cks) /\ ChainFrom(reg, rk, cks, stages, 1, feats)

-----------------------------------------------------------------------------
(* Impl layer: factory.py as written *)

\* _engine_satisfies_conditions (for well-formed requests: the assertions hold)
ImplSatisfies(e, r) ==
   IF r.mode \notin e.modes THEN FALSE
   ELSE IF r.mode \in {"oneshot_planner", "replanner", "portfolio_selector"} /\ r.og # None /\ r.og \notin e.opt THEN FALSE
   ELSE IF r.mode = "plan_validator" /\ r.pk # None /\ r.pk \notin e.plans THEN FALSE
   ELSE IF r.mode = "compiler" /\ r.ck # None /\ r.ck \notin e.comps THEN FALSE
   ELSE IF r.mode = "anytime_planner" /\ r.ag # None /\ r.ag \notin e.any THEN FALSE
   ELSE IF r.mode = "plan_repairer" /\ r.pk # None /\ r.pk \notin e.plans THEN FALSE
   ELSE IF r.mode = "plan_repairer" /\ r.og # None /\ r.og \notin e.opt THEN FALSE
   ELSE Supports(e, r.feats)

\* _get_engine_class: scan of the preference list
RECURSIVE ImplScan(_, _, _, _)
ImplScan(reg, prefs, r, i) ==
   IF i > Len(prefs) THEN NoEngine
   ELSE IF ImplSatisfies(reg[prefs[i]], r) THEN prefs[i]
   ELSE ImplScan(reg, prefs, r, i + 1)
ImplSelect(reg, prefs, r) == ImplScan(reg, prefs, r, 1)

\* _get_engine, branch `compilation_kinds is not None`: problem_kind is overwritten stage by stage
RECURSIVE ImplPipeFrom(_, _, _, _, _, _, _)
ImplPipeFrom(reg, prefs, rk, cks, i, feats, stages) ==
   IF i > Len(cks) THEN [k |-> "pipeline", stages |-> stages, at |-> 0]
   ELSE LET n == ImplSelect(reg, prefs, CompReq(feats, cks[i]))
        IN IF n = NoEngine THEN [k |-> "none", stages |-> stages, at |-> i]
           ELSE LET out == RK(rk, n, feats, cks[i])
                IN IF out.k = "exc" THEN [k |-> "rk-raises", stages |-> Append(stages, n), at |-> i]
                   ELSE ImplPipeFrom(reg, prefs, rk, cks, i + 1, out.f, Append(stages, n))
ImplPipe(reg, prefs, rk, feats, cks) == ImplPipeFrom(reg, prefs, rk, cks, 1, feats, <<>>)

-----------------------------------------------------------------------------
(* judging one recorded answer against the Spec layer: the violated clause ("" if none) *)

\* want = Select(reg, prefs, r) (computed once by the caller)
\* names = registered names of the class of the returned engine
EngineClause(reg, prefs, r, want, names) ==
   IF names = {} THEN "returned-unregistered-engine"
   ELSE IF want \in names THEN ""
   ELSE LET n == CHOOSE x \in names : TRUE
            lack == Lacks(reg[n], r)
        IN IF lack # "" THEN lack
           ELSE IF names \cap Range(prefs) = {} THEN "not-in-preference-list"
           ELSE "preference-order"

\* the factory raised UPNoSuitableEngineAvailableException
NoSuitableClause(want) == IF want = NoEngine THEN "" ELSE "no-suitable-raised-but-an-engine-qualifies"

\* get_all_applicable_engines returned the set of names `got`
AllClause(reg, prefs, r, got) ==
   LET want == SelectAll(reg, prefs, r)
   IN IF got \ DOMAIN reg # {} THEN "all-applicable-unregistered"
      ELSE IF got \ want # {} THEN "all-applicable-unsound-" \o Lacks(reg[CHOOSE n \in got \ want : TRUE], r)
      ELSE IF want \ got # {} THEN "all-applicable-incomplete"
      ELSE ""

\* a returned pipeline: stageNames[i] = registered names of the class of the i-th compiler;
\* want = Pipe(reg, prefs, rk, feats, cks) (computed once by the caller).  Names the first
\* stage that departs from the specification's chain (want.kinds[i] = kind reaching stage i)
PipelineClause(reg, prefs, cks, want, stageNames) ==
   IF want.k = "rk-raises" THEN <<"pipeline-resulting-kind-raises", want.at>>
   ELSE LET wantAt(i) == IF i <= Len(want.stages) THEN want.stages[i] ELSE NoEngine
            diff == {i \in 1..Len(want.kinds) : i > Len(stageNames) \/ wantAt(i) \notin stageNames[i]}
        IN IF diff = {} THEN (IF Len(stageNames) = Len(cks) THEN <<"", 0>> ELSE <<"pipeline-length", Len(stageNames)>>)
           ELSE LET i == CHOOSE x \in diff : \A y \in diff : x <= y
                IN IF i > Len(stageNames) THEN <<"pipeline-length", Len(stageNames)>>
                   ELSE <<"pipeline-stage-" \o EngineClause(reg, prefs, CompReq(want.kinds[i], cks[i]), wantAt(i), stageNames[i]), i>>
\* the factory raised UPNoSuitableEngineAvailableException for a pipeline request
PipelineNoSuitableClause(want) ==
      IF want.k = "none" THEN <<"", 0>>
      ELSE IF want.k = "rk-raises" THEN <<"pipeline-resulting-kind-raises", want.at>>
      ELSE <<"no-suitable-raised-but-a-pipeline-exists", 0>>
=============================================================================
