---------------------------- MODULE DeorderPlans ----------------------------
(***************************************************************************)
(* C27, phase 1 (generator G1 over G2 problems): TLC explores the          *)
(* SPECIFICATION's transition system (UPSeqSem!Step) of every problem of   *)
(* the corpus and enumerates every executable sequence of pairwise         *)
(* distinct ground action instances, up to length L, drawn from the        *)
(* problem's menu of ground actions.  Every reached (plan, state) is       *)
(* written by -dump; g tells whether the generated goal holds there.       *)
(* Steps inside the unspecified zones of DESIGN.md 7.1 are not taken, so   *)
(* every emitted sequence is executable according to the documentation.    *)
(***************************************************************************)
EXTENDS UPSeqSem, Json, IOUtils

Probs == ndJsonDeserialize(IOEnv.PROBS)
L == Probs[1].L

VARIABLES pid, plan, st, g
vars == <<pid, plan, st, g>>

R(p) == [P |-> Probs[p].P, keys |-> Probs[p].keys]
Used(pl) == {pl[i] : i \in DOMAIN pl}
\* TLC integers are 32 bit: sequences that build large numbers are not emitted
Small(s) == \A i \in DOMAIN s : s[i].k = "n" => (s[i].n <= 60 /\ s[i].n >= 0 - 60 /\ s[i].d <= 8)

Init == /\ pid \in {p \in DOMAIN Probs : InitOK3(R(p), InitSt(R(p))) = "T"}
        /\ plan = <<>>
        /\ st = InitSt(R(pid))
        /\ g = (Goal3(R(pid), st) = "T")

Next == /\ Len(plan) < L
        /\ \E m \in DOMAIN Probs[pid].menu \ Used(plan) :
              LET r == Step(R(pid), Probs[pid].menu[m], st) IN
              /\ r.ok /\ ~r.unspec /\ Small(r.s)
              /\ plan' = Append(plan, m)
              /\ st' = r.s
              /\ g' = (Goal3(R(pid), r.s) = "T")
        /\ UNCHANGED pid
Spec == Init /\ [][Next]_vars
=============================================================================
